"""E5: in-place effects of a function, with the origin of the object each effect touches.

Two analyses are combined:

* a flow-insensitive **may-alias** map: every local name is bound to the union of the origins
  of all values assigned to it anywhere in the function (so an alias is never lost);
* a flow-sensitive **must-fresh** analysis (rsx.flow.MustFlow): the fact ``('fresh', path)``
  holds at a point when, on every path reaching it, ``path`` is bound to an object created
  inside this function (constructor, arithmetic, ``np.*`` / ``sp.*`` creation, ``.copy()``,
  fancy indexing, slicing a sparse matrix ...).

An in-place effect on an object that is must-fresh is local; otherwise its may-origins say
whose object is being edited (a parameter, ``self``, the result of a cache-returning call).

The table of effect kinds is closed: subscript store, attribute store on a non-``self``
object, augmented assignment on a possibly mutable target, ``del x[...]``, and the mutating
methods in MUTATORS.
"""
import ast

from .flow import MustFlow, assigned_names
from .loader import attr_path, call_name, ntext, walk_no_nested, ClassInfo, body_stmts

MUTATORS = {'append', 'extend', 'insert', 'pop', 'remove', 'clear', 'sort', 'reverse',
            'resize', 'fill', 'put', 'update', 'setdefault', 'popitem', 'itemset',
            'setfield', 'setflags', 'partition', 'sort_indices', 'eliminate_zeros',
            'sum_duplicates', 'setdiag', 'add', 'discard'}

# methods returning a new object independent of the receiver's buffer
COPYING_METHODS = {'copy', 'tolist', 'flatten', 'toarray', 'todense', 'astype', 'sum', 'max',
                   'min', 'any', 'all', 'round', 'dot', 'tocsr', 'tocsc', 'tocoo', 'tolil',
                   'item', 'nonzero', 'cumsum', 'mean', 'format', 'join', 'split', 'upper',
                   'find', 'count', 'index', 'keys', 'values', 'items', 'get', 'transpose_copy',
                   'diagonal_copy', 'prod', 'argmax', 'argmin', 'repeat', 'take', 'compress',
                   '__str__', '__repr__', 'multiply', 'power', 'getrow', 'getcol'}
# methods returning (a view of / the same object as) the receiver
VIEW_METHODS = {'reshape', 'ravel', 'view', 'squeeze', 'transpose', 'to_affine', 'swapaxes',
                'diagonal', 'conj', '__getitem__'}
VIEW_ATTRS = {'T', 'flat', 'real', 'imag', 'data', 'indices', 'indptr', 'values', 'loc', 'iloc'}
# numpy / scipy functions that may return their argument or a view of it
NP_VIEW_FUNCS = {'asarray', 'reshape', 'ravel', 'squeeze', 'atleast_1d', 'atleast_2d',
                 'broadcast_to', 'transpose', 'asanyarray', 'ascontiguousarray', 'diagonal',
                 'swapaxes', 'moveaxis', 'expand_dims'}
NP_PREFIXES = ('np.', 'sp.', 'pd.', 'numpy.', 'scipy.', 'opt.')
FRESH_BUILTINS = {'list', 'tuple', 'dict', 'set', 'range', 'sum', 'len', 'int', 'float', 'str',
                  'abs', 'max', 'min', 'zip', 'enumerate', 'sorted', 'any', 'all', 'bool',
                  'frozenset', 'round', 'isinstance', 'type', 'repr', 'map', 'filter', 'iter',
                  'csr_matrix', 'coo_matrix', 'lil_matrix', 'csc_matrix', 'identity', 'vstack',
                  'hstack', 'sqrtm', 'eigh', 'flat', 'vert_comb', 'diag_comb', 'sparse_mul',
                  'sp_matmul', 'sp_lmatmul', 'sp_trans', 'index_array', 'array_to_sparse',
                  'sv_to_csr', 'event_dict', 'comb_set', 'rso_broadcast'}
# constructing the format a `.linear` already has does not copy (scipy: copy=False)
SAME_FORMAT_CTORS = {'csr_matrix'}
# result is the (possibly shared) cached object of the receiver
CACHED_CALLS = {'do_math', 'mix_support', 'rule_var'}
# fields known to hold scipy sparse matrices (indexing / slicing them copies)
SPARSE_FIELDS = {'linear'}


SCALAR_ATTRS = {'shape', 'size', 'ndim', 'nnz', 'dtype', 'first', 'last', 'dim'}


def _is_sparse_expr(expr):
    """x.linear  or  x['linear']: a scipy sparse matrix by the package's naming convention."""
    if isinstance(expr, ast.Attribute) and expr.attr in SPARSE_FIELDS:
        return True
    if isinstance(expr, ast.Subscript) and isinstance(expr.slice, ast.Constant) \
            and expr.slice.value in SPARSE_FIELDS:
        return True
    return False


FANCY_MAKERS = ('np.where', 'np.argwhere', 'np.arange', 'np.unique', 'np.array', 'np.flatnonzero',
                'np.nonzero', 'np.argsort', 'numpy.where', 'numpy.arange', 'list', 'sorted')


def _fancy_value(v):
    """an expression that denotes an index *array* (boolean mask or integer array / list)"""
    if isinstance(v, (ast.Compare, ast.List, ast.ListComp)):
        return True
    if isinstance(v, ast.BinOp) and isinstance(v.op, (ast.BitAnd, ast.BitOr)):
        return True
    if isinstance(v, ast.UnaryOp) and isinstance(v.op, ast.Invert):
        return True
    if isinstance(v, ast.Subscript):
        return _fancy_value(v.value)
    if isinstance(v, ast.Call):
        cn = call_name(v)
        if cn in FANCY_MAKERS:
            return True
        if isinstance(v.func, ast.Attribute) and v.func.attr in ('flatten', 'astype', 'ravel', 'reshape'):
            return _fancy_value(v.func.value)
    return False


def _is_basic_index(idx, fa=None):
    """Basic (view-producing) numpy indexing: ints, slices, Ellipsis, None, tuples of those."""
    if isinstance(idx, ast.Slice):
        return True
    if isinstance(idx, ast.Constant) and (idx.value is None or idx.value is Ellipsis
                                          or isinstance(idx.value, (int, str))):
        return True           # int element / dict key: the stored object itself
    if isinstance(idx, ast.UnaryOp) and isinstance(idx.operand, ast.Constant):
        return True
    if isinstance(idx, ast.Tuple):
        return all(_is_basic_index(e, fa) for e in idx.elts)
    if isinstance(idx, ast.Name):
        if fa is not None:
            vals = fa.bindings.get(idx.id, [])
            if vals and idx.id not in fa.params and idx.id not in fa.elem_bindings and \
                    all(_fancy_value(v) for v in vals):
                return False      # a named mask / index array: advanced indexing copies
        return True       # unknown: may be an int -> conservatively a view
    return False


from .webs import display as _display


class Effect:
    def __init__(self, node, kind, target, origins, fresh, stmt):
        self.node = node          # the AST node performing the effect
        self.kind = kind          # 'subscript-store' | 'attr-store' | 'augassign' | 'del' | 'call:<m>'
        self.target = target      # expression of the object being mutated
        self.origins = origins    # set of origin tuples (may)
        self.fresh = fresh        # must-fresh at this point
        self.stmt = stmt          # enclosing simple statement / control expression

    @property
    def text(self):
        return ntext(self.stmt)

    def roots(self):
        return {o[0] for o in self.origins}

    def __repr__(self):
        return '<Effect %s on %s origins=%s fresh=%s>' % (self.kind, ntext(self.target),
                                                         sorted(self.origins), self.fresh)


class FuncAccess(MustFlow):
    def __init__(self, repo, fi):
        super().__init__()
        self.repo = repo
        self.fi = fi
        self.params = set(fi.params) | set(fi.kwonly) | ({fi.vararg} if fi.vararg else set())
        self.is_method = fi.cls is not None and fi.params[:1] == ['self']
        self.bindings = {}        # name -> list of value expressions (may)
        self.elem_bindings = {}   # name -> list of iterables it ranges over
        # the bindings are keyed by name and flow-insensitive: analyse a copy in which unrelated
        # reuses of one local name are separate variables (rsx/webs.py); effects and queries are
        # mapped back to the nodes of fi.node
        self._o2c, self._c2o = {}, {}
        import copy as _copy
        from .webs import split_webs
        cp = _copy.deepcopy(fi.node)
        if split_webs(cp):
            a, b = list(ast.walk(fi.node)), list(ast.walk(cp))
            if len(a) == len(b):
                for x, y in zip(a, b):
                    self._o2c[id(x)] = y
                    self._c2o[id(y)] = x
                proxy = _copy.copy(fi)
                proxy.node = cp
                self.fi = proxy
        self._collect_bindings()
        self.effects = []
        self._cur_stmt = None
        self._origin_cache = {}
        self.run(body_stmts(fi))

    # ------------------------------------------------------------ may-alias bindings
    def _bind(self, target, value, elem=False):
        if elem:
            # iterate over a + b / list(a) / sorted(a) / reversed(a): elements of the operands
            if isinstance(value, ast.BinOp) and isinstance(value.op, ast.Add):
                self._bind(target, value.left, True)
                self._bind(target, value.right, True)
                return
            if isinstance(value, ast.Call) and isinstance(value.func, ast.Name):
                fn = value.func.id
                if fn in ('list', 'tuple', 'sorted', 'reversed', 'iter') and len(value.args) == 1:
                    self._bind(target, value.args[0], True)
                    return
                if fn == 'enumerate' and value.args and isinstance(target, (ast.Tuple, ast.List)) \
                        and len(target.elts) == 2:
                    self._bind(target.elts[1], value.args[0], True)
                    return
                if fn == 'zip' and isinstance(target, (ast.Tuple, ast.List)) \
                        and len(target.elts) == len(value.args):
                    for t, v in zip(target.elts, value.args):
                        self._bind(t, v, True)
                    return
        if isinstance(target, ast.Name):
            (self.elem_bindings if elem else self.bindings).setdefault(target.id, []).append(value)
        elif isinstance(target, (ast.Tuple, ast.List)):
            if not elem and isinstance(value, (ast.Tuple, ast.List)) and \
                    len(value.elts) == len(target.elts):
                for t, v in zip(target.elts, value.elts):
                    self._bind(t, v)
            else:
                for t in target.elts:
                    # element of (an element of) the value
                    self._bind(t, value, elem=True)
        elif isinstance(target, ast.Starred):
            self._bind(target.value, value, elem=True)

    def _collect_bindings(self):
        comp_targets = []
        for n in walk_no_nested(self.fi.node):
            if isinstance(n, ast.Assign):
                for t in n.targets:
                    self._bind(t, n.value)
            elif isinstance(n, ast.AnnAssign) and n.value is not None:
                self._bind(n.target, n.value)
            elif isinstance(n, ast.AugAssign):
                if isinstance(n.target, ast.Name):
                    # x += v may rebind x to a new object derived from both
                    self.bindings.setdefault(n.target.id, [])
            elif isinstance(n, ast.For):
                self._bind(n.target, n.iter, elem=True)
            elif isinstance(n, ast.With):
                for it in n.items:
                    if it.optional_vars is not None:
                        self._bind(it.optional_vars, it.context_expr)
            elif isinstance(n, ast.NamedExpr):
                self._bind(n.target, n.value)
            elif isinstance(n, (ast.ListComp, ast.SetComp, ast.GeneratorExp, ast.DictComp)):
                for g in n.generators:
                    comp_targets.append((g.target, g.iter))
        # comprehension variables live in their own scope: bind them only when the name is not also
        # a variable of the function itself (otherwise the function-level name would inherit origins
        # of a different variable)
        for tgt, it in comp_targets:
            names = {x.id for x in ast.walk(tgt) if isinstance(x, ast.Name)}
            if names & (set(self.bindings) | set(self.elem_bindings) | set(self.params)):
                continue
            self._bind(tgt, it, elem=True)

    # ------------------------------------------------------------------- origins (may)
    def origins(self, expr, _seen=None, rebound=frozenset()):
        """Set of origin tuples.  First component: 'self', 'param:<n>', 'cached:<fn>',
        'call:<fn>', 'new:<Class>', 'fresh', 'global:<n>', 'unknown'."""
        _seen = _seen if _seen is not None else set()
        expr = self._o2c.get(id(expr), expr)
        if isinstance(expr, ast.Name):
            n = expr.id
            if n in _seen:
                return set()
            _seen = _seen | {n}
            out = set()
            if n == 'self' and self.is_method:
                return {('self',)}
            if n in self.params and n not in rebound:
                out.add(('param:' + n,))
            for v in self.bindings.get(n, []):
                out |= self.origins(v, _seen)
            for v in self.elem_bindings.get(n, []):
                out |= {o + ('[]',) if o[0] not in ('fresh',) else ('fresh',)
                        for o in self.origins(v, _seen)}
            if not out:
                if n in self.bindings or n in self.elem_bindings:
                    out.add(('fresh',))
                else:
                    out.add(('global:' + n,))
            return out
        if isinstance(expr, ast.Attribute):
            if expr.attr in SCALAR_ATTRS:
                return {('fresh',)}       # immutable scalars / tuples
            base = self.origins(expr.value, _seen, rebound)
            out = set()
            for o in base:
                if o[0] == 'fresh':
                    out.add(('fresh',))
                elif o[0] == 'viaop':
                    # only the sparse coefficient matrix can be shared with the operand
                    if expr.attr in SPARSE_FIELDS:
                        out.add(o[1:] + (expr.attr,))
                    out.add(('fresh',))
                elif o[0].startswith('new:'):
                    out |= self._ctor_field(o, expr.attr, _seen)
                else:
                    out.add(o + (expr.attr,))
            return out
        if isinstance(expr, ast.Subscript):
            if isinstance(expr.slice, ast.Slice) and isinstance(expr.value, ast.Attribute) and \
                    isinstance(expr.value.value, ast.Name) and expr.value.value.id == 'self' and self.is_method and \
                    expr.value.attr in self.repo._list_attrs(self.fi.cls):
                return {('fresh',)}        # slicing a python list copies it
            base = self.origins(expr.value, _seen, rebound)
            if _is_sparse_expr(expr.value) or not _is_basic_index(expr.slice, self):
                # copy semantics -- except containers (lists/dicts) indexed by a Name/constant,
                # which _is_basic_index already treats as "view"
                return {('fresh',)}
            return {o + ('[]',) if o[0] != 'fresh' else ('fresh',) for o in base}
        if isinstance(expr, ast.Call):
            return self._call_origins(expr, _seen)
        if isinstance(expr, ast.Constant) and expr.value is None:
            return set()          # None is no object anybody could share or edit (a placeholder binding)
        if isinstance(expr, ast.IfExp):
            return self.origins(expr.body, _seen) | self.origins(expr.orelse, _seen)
        if isinstance(expr, ast.NamedExpr):
            return self.origins(expr.value, _seen)
        if isinstance(expr, ast.Starred):
            return self.origins(expr.value, _seen)
        if isinstance(expr, ast.BinOp) and isinstance(expr.op, (ast.Add, ast.Sub)):
            # x + c / x - c builds a new expression object that may share x's coefficient matrix
            # (Affine.__add__ with a constant passes self.linear on): remember the operands
            out = {('fresh',)}
            for side in (expr.left, expr.right):
                for o in self.origins(side, _seen, rebound):
                    if o[0] in ('self',) or o[0].startswith('param:'):
                        out.add(('viaop',) + o)
            return out
        if isinstance(expr, (ast.BinOp, ast.UnaryOp, ast.Compare, ast.BoolOp, ast.Constant,
                             ast.List, ast.Tuple, ast.Dict, ast.Set, ast.ListComp,
                             ast.SetComp, ast.DictComp, ast.GeneratorExp, ast.JoinedStr,
                             ast.Lambda, ast.Slice)):
            return {('fresh',)}
        return {('unknown', _display(ntext(expr)))}

    def _call_origins(self, call, _seen):
        name = call_name(call)
        last = name.split('.')[-1]
        if isinstance(call.func, ast.Attribute):
            if last in CACHED_CALLS:
                return {('cached:' + _display(ntext(call)),)}
            if last in COPYING_METHODS:
                return {('fresh',)}
            if last in VIEW_METHODS:
                return self.origins(call.func.value, _seen)
            if name.startswith(NP_PREFIXES):
                if last in NP_VIEW_FUNCS and call.args:
                    return self.origins(call.args[0], _seen) | {('fresh',)}
                return {('fresh',)}
            return {('call:' + name,)}
        if isinstance(call.func, ast.Name):
            r = self.repo.resolve_name(self.fi.module, call.func.id)
            if isinstance(r, ClassInfo):
                return {('new:' + r.fq, id(call))}
            if call.func.id in SAME_FORMAT_CTORS and len(call.args) == 1 and _is_sparse_expr(call.args[0]) and \
                    not any(k.arg == 'copy' and isinstance(k.value, ast.Constant) and k.value.value is True
                            for k in call.keywords):
                # csr_matrix(<csr matrix>) shares data / indices / indptr with its argument
                return self.origins(call.args[0], _seen) | {('fresh',)}
            if call.func.id in FRESH_BUILTINS:
                return {('fresh',)}
            out = {('call:' + name,)}
            # a module-level function that may hand back one of its arguments (check_numeric returns the
            # array it was given): the result may be that argument
            for p in _returned_params(self.repo, r):
                arg = None
                if p in r.params and r.params.index(p) < len(call.args) and \
                        not any(isinstance(a, ast.Starred) for a in call.args):
                    arg = call.args[r.params.index(p)]
                for k in call.keywords:
                    if k.arg == p:
                        arg = k.value
                if arg is not None:
                    out |= self.origins(arg, _seen)
            return out
        return {('call:' + name,)}

    def _ctor_field(self, origin, attr, _seen):
        """origin = ('new:mod.Class', id(call)): which constructor argument ends up in .attr?"""
        call = self._calls_by_id().get(origin[1])
        if call is None or ('ctor', origin[1], attr) in _seen or len(_seen) > 40:
            return {('fresh',)}
        _seen = _seen | {('ctor', origin[1], attr)}
        ci = self.repo.cls(origin[0][4:])
        from .ctor import ctor_field_args
        exprs = ctor_field_args(self.repo, ci, call, attr)
        if exprs is None:
            return {('unknown', origin[0] + '.' + attr)}
        out = set()
        for e in exprs:
            out |= self.origins(e, _seen)
        return out or {('fresh',)}

    def _calls_by_id(self):
        if not hasattr(self, '_cbi'):
            self._cbi = {id(n): n for n in walk_no_nested(self.fi.node) if isinstance(n, ast.Call)}
        return self._cbi

    # ------------------------------------------------------------------- must-fresh flow
    def is_fresh(self, expr, state):
        if isinstance(expr, (ast.Name, ast.Attribute)):
            p = attr_path(expr)
            if p is not None and ('fresh', p) in state:
                return True
            if isinstance(expr, ast.Attribute) and expr.attr in VIEW_ATTRS:
                return self.is_fresh(expr.value, state)
            if isinstance(expr, ast.Attribute) and expr.attr in SCALAR_ATTRS:
                return True
            return False
        if isinstance(expr, ast.Subscript):
            if _is_sparse_expr(expr.value):
                return True
            if not _is_basic_index(expr.slice, self):
                return True
            return self.is_fresh(expr.value, state)
        if isinstance(expr, ast.Call):
            name = call_name(expr)
            last = name.split('.')[-1]
            if isinstance(expr.func, ast.Attribute):
                if last in CACHED_CALLS:
                    return False
                if last in COPYING_METHODS:
                    return True
                if last in VIEW_METHODS:
                    return self.is_fresh(expr.func.value, state)
                if name.startswith(NP_PREFIXES):
                    if last in NP_VIEW_FUNCS:
                        return bool(expr.args) and self.is_fresh(expr.args[0], state)
                    return True
                return False
            if isinstance(expr.func, ast.Name):
                r = self.repo.resolve_name(self.fi.module, expr.func.id)
                if isinstance(r, ClassInfo):
                    return True
                if expr.func.id in SAME_FORMAT_CTORS and len(expr.args) == 1 and _is_sparse_expr(expr.args[0]) and \
                        not any(k.arg == 'copy' and isinstance(k.value, ast.Constant) and k.value.value is True
                                for k in expr.keywords):
                    return self.is_fresh(expr.args[0], state)
                return expr.func.id in FRESH_BUILTINS
            return False
        if isinstance(expr, ast.IfExp):
            return self.is_fresh(expr.body, state) and self.is_fresh(expr.orelse, state)
        if isinstance(expr, (ast.BinOp, ast.UnaryOp, ast.Compare, ast.BoolOp, ast.Constant,
                             ast.List, ast.Tuple, ast.Dict, ast.Set, ast.ListComp,
                             ast.SetComp, ast.DictComp, ast.GeneratorExp, ast.JoinedStr)):
            return True
        return False

    def refine(self, test, branch, state):
        return state

    def bind_loop(self, target, iter_node, state):
        names = assigned_names(target)
        return frozenset(f for f in state if not (f[0] == 'fresh' and f[1][0] in names))

    def _kill(self, state, path):
        n = len(path)
        return frozenset(f for f in state if not (f[0] == 'fresh' and f[1][:n] == path))

    def transfer(self, node, state):
        if isinstance(node, ast.Assign):
            fresh = self.is_fresh(node.value, state)
            for t in node.targets:
                state = self._assign_target(t, node.value, fresh, state)
                if isinstance(t, ast.Name) and t.id in self.params and not any(
                        isinstance(x, ast.Name) and x.id == t.id for x in ast.walk(node.value)):
                    # definitely re-bound to something that does not derive from the parameter
                    state = state | {('rebound', t.id)}
            return state
        if isinstance(node, ast.AnnAssign) and node.value is not None:
            return self._assign_target(node.target, node.value,
                                       self.is_fresh(node.value, state), state)
        if isinstance(node, ast.AugAssign):
            # x op= v: either an in-place edit of x (stays fresh iff it was) or a rebinding to a
            # new object; in both cases freshness of x is preserved, never gained here.
            return state
        if isinstance(node, ast.expr):
            names = assigned_names(node)
            if names:
                state = frozenset(f for f in state if not (f[0] == 'fresh' and f[1][0] in names))
        return state

    def _assign_target(self, t, value, fresh, state):
        if isinstance(t, (ast.Name, ast.Attribute)):
            p = attr_path(t)
            if p is None:
                return state
            state = self._kill(state, p)
            if fresh:
                state = state | {('fresh', p)}
            return state
        if isinstance(t, (ast.Tuple, ast.List)):
            if isinstance(value, (ast.Tuple, ast.List)) and len(value.elts) == len(t.elts):
                for tt, vv in zip(t.elts, value.elts):
                    state = self._assign_target(tt, vv, self.is_fresh(vv, state), state)
                return state
            for tt in t.elts:
                if isinstance(tt, ast.Starred):
                    tt = tt.value
                p = attr_path(tt) if isinstance(tt, (ast.Name, ast.Attribute)) else None
                if p is not None:
                    state = self._kill(state, p)
            return state
        return state      # subscript store: an effect, not a rebinding

    # ------------------------------------------------------------------- effect collection
    def visit(self, node, state):
        self._cur_stmt = node
        if isinstance(node, (ast.Assign, ast.AnnAssign)):
            targets = node.targets if isinstance(node, ast.Assign) else [node.target]
            for t in targets:
                self._store_target(t, state, 'store')
        elif isinstance(node, ast.AugAssign):
            t = node.target
            if isinstance(t, ast.Subscript):
                self._emit(node, 'subscript-store', t.value, state)
            elif isinstance(t, ast.Name) and self._rebinding_augassign(t.id, node.op, state):
                pass          # an object of a package class without __i<op>__: `x op= v` is `x = x op v`
            else:
                self._emit(node, 'augassign', t, state)
        elif isinstance(node, ast.Delete):
            for t in node.targets:
                if isinstance(t, ast.Subscript):
                    self._emit(node, 'del', t.value, state)
        for n in walk_no_nested(node):
            if isinstance(n, ast.Call):
                # library calls that are told to work in place on one of their arguments
                for kw in n.keywords:
                    if kw.arg and kw.arg.startswith('overwrite_') and \
                            isinstance(kw.value, ast.Constant) and kw.value.value is True:
                        pos = {'overwrite_a': 0, 'overwrite_b': 1, 'overwrite_x': 0,
                               'overwrite_ab': 0, 'overwrite_input': 0}.get(kw.arg, 0)
                        if len(n.args) > pos:
                            self._emit(n, 'call:' + kw.arg, n.args[pos], state)
                    elif kw.arg == 'out' and not (isinstance(kw.value, ast.Constant) and kw.value.value is None):
                        self._emit(n, 'call:out=', kw.value, state)
                    elif kw.arg == 'inplace' and isinstance(kw.value, ast.Constant) and kw.value.value is True \
                            and isinstance(n.func, ast.Attribute):
                        self._emit(n, 'call:inplace', n.func.value, state)
                    elif kw.arg == 'copy' and isinstance(kw.value, ast.Constant) and kw.value.value is False:
                        pass      # aliasing, not an edit: handled by the origin analysis of the result
                if call_name(n) in ('np.copyto', 'np.put', 'np.place', 'np.putmask', 'np.fill_diagonal',
                                    'numpy.copyto') and n.args:
                    self._emit(n, 'call:' + call_name(n), n.args[0], state)
            if isinstance(n, ast.Call) and isinstance(n.func, ast.Attribute) \
                    and n.func.attr in MUTATORS:
                cn = call_name(n)
                if cn.startswith(NP_PREFIXES):
                    continue
                self._emit(n, 'call:' + n.func.attr, n.func.value, state)

    def _rebinding_augassign(self, name, op, state):
        from .flow import clauses_of
        dunder = {ast.Add: '__iadd__', ast.Sub: '__isub__', ast.Mult: '__imul__', ast.MatMult: '__imatmul__',
                  ast.Div: '__itruediv__', ast.Pow: '__ipow__'}.get(type(op))
        if dunder is None:
            return False
        for c in clauses_of(state):
            if len(c) != 1:
                continue
            atom, pol = next(iter(c))
            if not pol or not atom.startswith('isinstance(%s, ' % name):
                continue
            try:
                call = ast.parse(atom, mode='eval').body
            except SyntaxError:
                continue
            cls_expr = call.args[1]
            names = [e for e in (cls_expr.elts if isinstance(cls_expr, ast.Tuple) else [cls_expr])]
            infos = [self.repo.resolve_name(self.fi.module, e.id) if isinstance(e, ast.Name) else None for e in names]
            if infos and all(isinstance(ci, ClassInfo) and self.repo.resolve_method(ci, dunder) is None for ci in infos):
                return True
        return False

    def _store_target(self, t, state, kind):
        if isinstance(t, ast.Subscript):
            self._emit(t, 'subscript-store', t.value, state)
        elif isinstance(t, ast.Attribute):
            if not (isinstance(t.value, ast.Name) and t.value.id == 'self' and self.is_method):
                self._emit(t, 'attr-store:' + t.attr, t.value, state)
            else:
                self._emit(t, 'self-attr-store:' + t.attr, t.value, state)
        elif isinstance(t, (ast.Tuple, ast.List)):
            for e in t.elts:
                self._store_target(e.value if isinstance(e, ast.Starred) else e, state, kind)

    def _emit(self, node, kind, target, state):
        fresh = self.is_fresh(target, state)
        rebound = frozenset(f[1] for f in state if f[0] == 'rebound')
        o = self._c2o
        self.effects.append(Effect(o.get(id(node), node), kind, o.get(id(target), target),
                                   self.origins(target, None, rebound), fresh,
                                   o.get(id(self._cur_stmt), self._cur_stmt)))

    def bindings_of(self, name_node):
        """the (may) value expressions of the variable a Name node of fi.node denotes"""
        n = self._o2c.get(id(name_node), name_node)
        return self.bindings.get(n.id, []) if isinstance(n, ast.Name) else []


_cache = {}
_ret_cache = {}


def _returned_params(repo, callee):
    """parameters of a module-level function that some return statement may return (as the object itself)"""
    from .loader import FuncInfo
    if not isinstance(callee, FuncInfo) or callee.cls is not None:
        return ()
    _ret_cache = repo.__dict__.setdefault('_ret_cache', {})       # kept on the repo: never shared between trees
    key = callee.fq
    if key in _ret_cache:
        return _ret_cache[key]
    _ret_cache[key] = ()             # recursion guard
    fa = access(repo, callee)
    out = set()
    for n in walk_no_nested(fa.fi.node):
        if isinstance(n, ast.Return) and n.value is not None:
            for o in fa.origins(n.value):
                if len(o) == 1 and o[0].startswith('param:'):
                    out.add(o[0][6:])
    _ret_cache[key] = tuple(sorted(out))
    return _ret_cache[key]


def access(repo, fi):
    _cache = repo.__dict__.setdefault('_access_cache', {}) if repo is not None else {}
    key = fi.fq
    if key not in _cache:
        _cache[key] = FuncAccess(repo, fi)
    return _cache[key]
