"""E7: interpretation of if/elif dispatch chains over constraint classes and atom letters.

A dispatch context says what is known about the object being routed: its class (ClassInfo)
and, for convex constraints, its one-letter ``xtype``.  Tests of the forms

    isinstance(v, C) / isinstance(v, (C1, C2)) / not isinstance(...)
    v.xtype in 'ABC' / v.xtype == 'A' / v.xtype in ['A', 'B'] / v.xtype != 'A'
    a and b / a or b / not a

are decided; anything else is *unknown*.  An unknown test whose body always raises is a guard
and is skipped; any other unknown test or simple statement ends the chain: we are inside the
handler for this context (a leaf).
"""
import ast

from .loader import AnalysisError, ntext, ClassInfo, is_self_attr, call_name
from .flow import MustFlow

ABSTRACT_ITERABLES = {'Iterable', 'Sized', 'list', 'tuple', 'Real', 'np.ndarray', 'int', 'float',
                      'str', 'pd.Series'}


class Ctx:
    def __init__(self, repo, module, var, kind=None, letter=None, attrs=None):
        self.repo = repo
        self.module = module      # module whose namespace resolves class names in tests
        self.vars = {var} if isinstance(var, str) else set(var)   # names of the dispatched object
        self.kind = kind          # ClassInfo
        self.letter = letter
        self.attrs = attrs or {}  # other known string attributes, e.g. {'ctype': 'R'}

    def but(self, **kw):
        c = Ctx(self.repo, self.module, set(self.vars), self.kind, self.letter, dict(self.attrs))
        for k, v in kw.items():
            setattr(c, k, v)
        return c


def _always_raises(stmts):
    o = MustFlow().run(stmts)
    return o.normal is None and not o.returns and not o.breaks and not o.continues


def decide(test, ctx):
    """True / False / None (unknown)."""
    if isinstance(test, ast.UnaryOp) and isinstance(test.op, ast.Not):
        v = decide(test.operand, ctx)
        return None if v is None else (not v)
    if isinstance(test, ast.BoolOp):
        vals = [decide(v, ctx) for v in test.values]
        if isinstance(test.op, ast.And):
            if any(v is False for v in vals):
                return False
            if all(v is True for v in vals):
                return True
            return None
        if any(v is True for v in vals):
            return True
        if all(v is False for v in vals):
            return False
        return None
    if isinstance(test, ast.Call) and isinstance(test.func, ast.Name) and test.func.id == 'isinstance' \
            and len(test.args) == 2:
        x, c = test.args
        if not (isinstance(x, ast.Name) and x.id in ctx.vars):
            return None
        if ctx.kind is None:
            return None
        elts = c.elts if isinstance(c, ast.Tuple) else [c]
        unknown = False
        for e in elts:
            name = ntext(e)
            if name in ABSTRACT_ITERABLES:
                continue          # rsome constraint/expression classes are none of these
            r = ctx.repo.resolve_name(ctx.module, name) if isinstance(e, ast.Name) else None
            if isinstance(r, ClassInfo):
                if ctx.repo.is_subclass(ctx.kind, r):
                    return True
            else:
                unknown = True
        return None if unknown else False
    if isinstance(test, ast.Compare) and len(test.ops) == 1:
        left, op, right = test.left, test.ops[0], test.comparators[0]
        if isinstance(left, ast.Attribute) and isinstance(left.value, ast.Name) \
                and left.value.id in ctx.vars:
            known = ctx.letter if left.attr == 'xtype' else ctx.attrs.get(left.attr)
            if known is None:
                return None
            if isinstance(right, ast.Name) and ctx.module in ctx.repo.modules:
                g = ctx.repo.modules[ctx.module].globals_assigned.get(right.id)
                if isinstance(g, (ast.Constant, ast.Tuple, ast.List)):
                    right = g                      # a module-level constant naming the letter group
            if isinstance(op, (ast.In, ast.NotIn)):
                if isinstance(right, ast.Constant) and isinstance(right.value, str):
                    members = list(right.value)
                    res = known in right.value
                elif isinstance(right, (ast.List, ast.Tuple, ast.Set)) and \
                        all(isinstance(e, ast.Constant) for e in right.elts):
                    res = known in [e.value for e in right.elts]
                else:
                    return None
                return res if isinstance(op, ast.In) else (not res)
            if isinstance(op, (ast.Eq, ast.NotEq)) and isinstance(right, ast.Constant):
                res = (known == right.value)
                return res if isinstance(op, ast.Eq) else (not res)
    return None


class Leaf:
    def __init__(self, stmts, path):
        self.stmts = stmts
        self.path = path          # list of (test text, branch) taken

    def raises(self):
        return bool(self.stmts) and _always_raises(self.stmts)

    def appends(self, var):
        var = {var} if isinstance(var, str) else set(var)
        """Container names X for self.X.append(var) / local.append(var) in the leaf (top level
        or nested simple statements, not inside further undecided dispatch)."""
        out = []
        for st in self.stmts:
            for n in ast.walk(st):
                if isinstance(n, ast.Call) and isinstance(n.func, ast.Attribute) \
                        and n.func.attr in ('append', 'extend') and n.args:
                    a = n.args[0]
                    if isinstance(a, ast.Name) and a.id in var or \
                            (isinstance(a, ast.Attribute) and isinstance(a.value, ast.Name)
                             and a.value.id in var):
                        c = ntext(n.func.value)
                        out.append(getattr(self, 'calias', {}).get(c, c))
        return out

    def delegates(self, var):
        var = {var} if isinstance(var, str) else set(var)
        """super().m(var) / self.m(var) / obj.m(var) calls passing the dispatched variable."""
        out = []
        for st in self.stmts:
            for n in ast.walk(st):
                if isinstance(n, ast.Call) and any(isinstance(a, ast.Name) and a.id in var
                                                   for a in n.args):
                    cn = call_name(n)
                    if not cn.endswith(('.append', '.extend')) and cn != 'isinstance':
                        out.append((cn, n))
        return out

    def nontrivial(self):
        return any(not isinstance(s, (ast.Pass, ast.Continue)) for s in self.stmts)


def dispatch(stmts, ctx, top_level_skip=False, _path=None, _depth=0):
    """Follow the decidable tests; return the Leaf reached or None when every chain falls
    through.  `top_level_skip`: simple statements at depth 0 are bookkeeping, not handlers."""
    path = list(_path or [])
    for i, st in enumerate(stmts):
        if isinstance(st, ast.If):
            v = decide(st.test, ctx)
            if v is None:
                if _always_raises(st.body) and not st.orelse:
                    continue                       # guard
                if _always_raises(st.body) or (st.orelse and _always_raises(st.orelse)):
                    # a guard written with its accepting arm attached (if bad: raise / elif ..  or
                    # if good: <chain> / else: raise): the object goes on into the other arm
                    other = st.orelse if _always_raises(st.body) else st.body
                    sub = dispatch(other, ctx, top_level_skip, path, _depth + 1)
                    if sub is not None:
                        return sub
                    continue
                if _depth == 0 and top_level_skip:
                    continue
                lf = Leaf(stmts[i:], path)
                lf.calias = dict(getattr(ctx, 'calias', {}))
                return lf
            branch = st.body if v else st.orelse
            sub = dispatch(branch, ctx, top_level_skip, path + [(ntext(st.test), v)], _depth + 1)
            if sub is not None:
                return sub
            continue
        if isinstance(st, ast.Pass):
            continue
        if isinstance(st, ast.Assign) and len(st.targets) == 1 and isinstance(st.targets[0], ast.Name) and \
                st.targets[0].id.startswith(('ret__h', 'tmp__h')) and isinstance(st.value, ast.Constant):
            continue                               # bookkeeping of an inlined helper
        if isinstance(st, ast.For) and isinstance(st.target, ast.Name) and st.target.id.startswith('once__h'):
            # the one-iteration loop an inlined helper with early returns is spliced as
            sub = dispatch(st.body, ctx, top_level_skip, path, _depth + 1)
            if sub is not None:
                return sub
            continue
        if isinstance(st, ast.Assign) and len(st.targets) == 1 and isinstance(st.targets[0], ast.Name) \
                and isinstance(st.value, ast.Name) and st.value.id in ctx.vars:
            ctx.vars.add(st.targets[0].id)         # plain alias of the dispatched object
            continue
        if isinstance(st, ast.Assign) and len(st.targets) == 1 and isinstance(st.targets[0], ast.Name) \
                and (is_self_attr(st.value) or isinstance(st.value, ast.Name)) and _depth > 0:
            if not hasattr(ctx, 'calias'):
                ctx.calias = {}
            ctx.calias[st.targets[0].id] = ntext(st.value)      # target = self.aux_ipc: alias of a container
            continue
        if _depth == 0 and top_level_skip:
            continue
        if isinstance(st, (ast.Assign, ast.Expr)) and any(
                isinstance(later, ast.If) and decide(later.test, ctx) is not None for later in stmts[i + 1:]):
            continue        # a computation shared by the arms of a decidable chain that follows
        lf = Leaf(stmts[i:], path)
        lf.calias = dict(getattr(ctx, 'calias', {}))
        return lf
    return None


def chain_tests(if_node):
    """[(test, body)] of an if/elif chain plus the final else body (or None)."""
    out = []
    cur = if_node
    while True:
        out.append((cur.test, cur.body))
        if len(cur.orelse) == 1 and isinstance(cur.orelse[0], ast.If):
            cur = cur.orelse[0]
            continue
        return out, (cur.orelse or None)


def shadowed_branches(repo, module, if_node, var):
    """In a chain of isinstance(var, ...) tests, a later class that is a subclass of an
    earlier tested class can never be reached."""
    tests, _ = chain_tests(if_node)
    seen = []      # (ClassInfo, test text)
    out = []
    for test, _body in tests:
        if not (isinstance(test, ast.Call) and isinstance(test.func, ast.Name)
                and test.func.id == 'isinstance' and len(test.args) == 2
                and isinstance(test.args[0], ast.Name) and test.args[0].id == var):
            continue
        c = test.args[1]
        elts = c.elts if isinstance(c, ast.Tuple) else [c]
        here = []
        for e in elts:
            r = repo.resolve_name(module, e.id) if isinstance(e, ast.Name) else None
            if isinstance(r, ClassInfo):
                for prev, ptxt in seen:
                    if repo.is_subclass(r, prev):
                        out.append((r.fq, prev.fq, ptxt, ntext(test)))
                here.append((r, ntext(test)))
        seen += here
    return out
