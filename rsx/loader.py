"""E1/E2: parse the rsome package and build module, class and function tables.

Nothing here imports or runs rsome.  Everything is derived from the source text of
``$RSOME_REPO/rsome/*.py`` (default /repo) with the standard-library ``ast`` module.
"""
import ast
import hashlib
import os

REPO = os.environ.get('RSOME_REPO', '/repo')
PKG = 'rsome'


class AnalysisError(Exception):
    """The analyser cannot interpret the tree (anchor vanished, floor not met,
    construct outside the interpreted language).  Always exit 2, never a VIOLATION."""


def ntext(node):
    """Normalised source text of a node: used for keys, never line numbers."""
    if isinstance(node, str):
        return node
    return ast.unparse(node)


class FuncInfo:
    def __init__(self, module, cls, node):
        self.module = module          # module short name, e.g. 'lp'
        self.cls = cls                # ClassInfo or None
        self.node = node              # analysed body: private helpers inlined (rsx/inline.py)
        self.raw_node = node          # the body as written
        self.absorbed = False         # private helper inlined at every one of its call sites
        self.name = node.name
        self.qual = (cls.name + '.' if cls else '') + node.name
        self.fq = module + '.' + self.qual
        self.params = [a.arg for a in node.args.posonlyargs + node.args.args]
        if node.args.vararg:
            self.vararg = node.args.vararg.arg
        else:
            self.vararg = None
        self.kwonly = [a.arg for a in node.args.kwonlyargs]

    @property
    def is_property(self):
        for d in self.node.decorator_list:
            if isinstance(d, ast.Name) and d.id == 'property':
                return True
        return False

    def __repr__(self):
        return '<Func %s>' % self.fq


class ClassInfo:
    def __init__(self, module, node):
        self.module = module
        self.node = node
        self.name = node.name
        self.fq = module + '.' + node.name
        self.base_exprs = node.bases
        self.bases = []               # resolved ClassInfo list
        self.methods = {}             # own methods
        self.class_attrs = {}         # name -> value node (class-body assignments)

    def __repr__(self):
        return '<Class %s>' % self.fq


class ModuleInfo:
    def __init__(self, name, path, source, tree):
        self.name = name
        self.path = path
        self.source = source
        self.tree = tree
        self.digest = hashlib.sha256(source.encode()).hexdigest()
        self.classes = {}
        self.functions = {}
        self.imports = {}             # local name -> (module short name, original name)
        self.star_imports = []        # module short names
        self.ext_imports = {}         # local alias -> external dotted name
        self.globals_assigned = {}    # module-level assigned names -> value node


class Repo:
    def __init__(self, root=None):
        self.root = root or REPO
        self.pkgdir = os.path.join(self.root, PKG)
        self.modules = {}
        self.consulted = set()
        self._load()
        self._resolve_bases()
        self._resolve_method_aliases()
        if os.environ.get('RSX_NO_INLINE') != '1':
            self._inline_helpers()

    # ------------------------------------------------------------------ loading
    def _load(self):
        if not os.path.isdir(self.pkgdir):
            raise AnalysisError('package directory %s not found' % self.pkgdir)
        names = sorted(f for f in os.listdir(self.pkgdir) if f.endswith('.py'))
        if not names:
            raise AnalysisError('no python files in %s' % self.pkgdir)
        for fname in names:
            path = os.path.join(self.pkgdir, fname)
            with open(path, encoding='utf-8') as fh:
                src = fh.read()
            try:
                tree = ast.parse(src, filename=path)
            except SyntaxError as exc:
                raise AnalysisError('cannot parse %s: %s' % (path, exc))
            mname = fname[:-3]
            mod = ModuleInfo(mname, path, src, tree)
            self.modules[mname] = mod
            self._index_module(mod)

    def _index_module(self, mod):
        for node in mod.tree.body:
            if isinstance(node, ast.ClassDef):
                ci = ClassInfo(mod.name, node)
                mod.classes[node.name] = ci
                for sub in node.body:
                    if isinstance(sub, (ast.FunctionDef, ast.AsyncFunctionDef)):
                        ci.methods[sub.name] = FuncInfo(mod.name, ci, sub)
                    elif isinstance(sub, ast.Assign):
                        for t in sub.targets:
                            if isinstance(t, ast.Name):
                                ci.class_attrs[t.id] = sub.value
                                # `__rmul__ = __mul__` in the class body: the same method under two names
                                if isinstance(sub.value, ast.Name) and sub.value.id in ci.methods:
                                    ci.methods[t.id] = ci.methods[sub.value.id]
                    elif isinstance(sub, ast.AnnAssign) and isinstance(sub.target, ast.Name):
                        ci.class_attrs[sub.target.id] = sub.value
            elif isinstance(node, (ast.FunctionDef, ast.AsyncFunctionDef)):
                mod.functions[node.name] = FuncInfo(mod.name, None, node)
            elif isinstance(node, ast.ImportFrom):
                if node.level >= 1:
                    src = (node.module or '').split('.')[0]
                    for a in node.names:
                        if a.name == '*':
                            mod.star_imports.append(src)
                        else:
                            mod.imports[a.asname or a.name] = (src, a.name)
                else:
                    for a in node.names:
                        mod.ext_imports[a.asname or a.name] = (node.module or '') + '.' + a.name
            elif isinstance(node, ast.Import):
                for a in node.names:
                    mod.ext_imports[a.asname or a.name.split('.')[0]] = a.name
            elif isinstance(node, ast.Assign):
                for t in node.targets:
                    if isinstance(t, ast.Name):
                        mod.globals_assigned[t.id] = node.value
                    elif isinstance(t, (ast.Tuple, ast.List)) and isinstance(node.value, (ast.Tuple, ast.List)) and \
                            len(t.elts) == len(node.value.elts) and all(isinstance(e, ast.Name) for e in t.elts):
                        for e, v in zip(t.elts, node.value.elts):      # _MIN, _MAX = 1, -1
                            mod.globals_assigned[e.id] = v

    def _resolve_bases(self):
        for mod in self.modules.values():
            for ci in mod.classes.values():
                for b in ci.base_exprs:
                    if isinstance(b, ast.Name):
                        r = self.resolve_name(mod.name, b.id)
                        if isinstance(r, ClassInfo):
                            ci.bases.append(r)

    def _resolve_method_aliases(self):
        """`__mul__ = DecRule.__mul__` in a class body: the other class's function under this name"""
        for mod in self.modules.values():
            for ci in mod.classes.values():
                for k, v in ci.class_attrs.items():
                    if isinstance(v, ast.Attribute) and isinstance(v.value, ast.Name) and k not in ci.methods:
                        r = self.resolve_name(mod.name, v.value.id)
                        if isinstance(r, ClassInfo):
                            m = self.resolve_method(r, v.attr)
                            if m is not None:
                                ci.methods[k] = m

    def _inline_helpers(self):
        """Replace calls to private helpers by their bodies (see rsx/inline.py) and mark helpers
        that no longer have any un-inlined reference as absorbed."""
        from .inline import Inliner, desugar, SuperCalls
        from .normalize import normalize_function
        inl = Inliner(self)
        funcs = list(self.all_functions(include_absorbed=True))
        self.desugared = []
        self.normalized = []
        for fi in funcs:
            node, ch = desugar(fi.raw_node, self.modules[fi.module].globals_assigned, self._cls_seqs(fi.cls))
            if ch:
                fi.node = fi.raw_node = node
                self.desugared.append(fi.fq)
            node, ch = normalize_function(fi.raw_node, self._sig_resolver(fi), self._list_attrs(fi.cls), self._mod_consts(fi), self._cls_consts(fi.cls))
            if ch:
                fi.node = fi.raw_node = node
                self.normalized.append(fi.fq)
            if fi.cls is not None and fi.cls.bases:
                import copy as _copy
                sc = SuperCalls(self, fi)
                node = sc.visit(_copy.deepcopy(fi.raw_node))
                if sc.changed:
                    ast.fix_missing_locations(node)
                    fi.node = fi.raw_node = node
        expanded = {}
        for fi in funcs:
            try:
                node, changed = inl.expand(fi)
            except RecursionError:
                raise AnalysisError('inliner: recursion while expanding %s' % fi.fq)
            if changed:
                expanded[fi.fq] = node
        for fi in funcs:
            if fi.fq in expanded:
                # the spliced bodies introduce new aliases / named conditions: normalise again
                node, _ch = desugar(expanded[fi.fq], self.modules[fi.module].globals_assigned, self._cls_seqs(fi.cls))
                node, _ch = normalize_function(node, self._sig_resolver(fi), self._list_attrs(fi.cls), self._mod_consts(fi), self._cls_consts(fi.cls))
                # spliced helper bodies carry the helper's line numbers: give the function synthetic,
                # monotone positions (document order) for the rules that order statements, and keep
                # the real line for messages
                k = [0]

                def renumber(n):
                    if hasattr(n, 'lineno'):
                        n.orig_lineno = n.lineno
                        k[0] += 1
                        n.lineno = k[0]
                        n.col_offset = 0
                    for c in ast.iter_child_nodes(n):
                        renumber(c)
                first = node.lineno
                renumber(node)
                node.orig_lineno = first
                fi.node = node
        self.inlined = dict(inl.inlined_sites)
        # absorbed helpers: every remaining reference sits in another absorbed helper
        cands = {fq for fq in inl.inlined_sites}
        by_fq = {fi.fq: fi for fi in funcs}
        refs = {}
        cands = {fq for fq in cands if fq in by_fq}       # (nested local helpers are not functions of the table)
        for fq in cands:
            name = by_fq[fq].name
            users = set()
            for fi in funcs:
                if fi.fq == fq:
                    continue
                for n in ast.walk(fi.node):
                    if (isinstance(n, ast.Attribute) and n.attr == name) or (isinstance(n, ast.Name) and n.id == name):
                        users.add(fi.fq)
                        break
            for mod in self.modules.values():
                for st in mod.tree.body:
                    if isinstance(st, (ast.FunctionDef, ast.AsyncFunctionDef, ast.ClassDef)):
                        continue
                    for n in ast.walk(st):
                        if isinstance(n, ast.Name) and n.id == name:
                            users.add('<module %s>' % mod.name)
            refs[fq] = users
        absorbed = set(cands)
        changed = True
        while changed:
            changed = False
            for fq in list(absorbed):
                if any(u not in absorbed for u in refs[fq]):
                    absorbed.discard(fq)
                    changed = True
        for fq in absorbed:
            by_fq[fq].absorbed = True

    def _mod_consts(self, fi):
        """private module-level names bound once to a number / string literal (_MINIMIZE = 1), not shadowed
        by a parameter or local of the function"""
        mod = self.modules[fi.module]
        if not hasattr(mod, '_lit_consts'):
            counts = {}
            for n in mod.tree.body:
                if isinstance(n, ast.Assign):
                    for t in n.targets:
                        for x in ast.walk(t):
                            if isinstance(x, ast.Name) and isinstance(x.ctx, ast.Store):
                                counts[x.id] = counts.get(x.id, 0) + 1
            mod._lit_consts = {}
            for k, v in mod.globals_assigned.items():
                if counts.get(k) == 1 and k.startswith('_') and not k.startswith('__'):
                    vv = v.operand if isinstance(v, ast.UnaryOp) and isinstance(v.op, (ast.USub, ast.UAdd)) else v
                    if isinstance(vv, ast.Constant) and isinstance(vv.value, (int, float, str)) and \
                            not isinstance(vv.value, bool):
                        mod._lit_consts[k] = v
                    elif isinstance(v, ast.Tuple) and v.elts and all(
                            isinstance(e, ast.Constant) and isinstance(e.value, (int, float, str)) for e in v.elts):
                        mod._lit_consts[k] = v          # an immutable tuple of literals: _INT_TYPES = ('B', 'I')
        if not mod._lit_consts:
            return {}
        local = {a.arg for a in fi.raw_node.args.posonlyargs + fi.raw_node.args.args + fi.raw_node.args.kwonlyargs}
        for n in ast.walk(fi.raw_node):
            if isinstance(n, ast.Name) and isinstance(n.ctx, (ast.Store, ast.Del)):
                local.add(n.id)
        return {k: v for k, v in mod._lit_consts.items() if k not in local}

    def _cls_consts(self, ci):
        """private class-level literal constants, read as self._X"""
        if ci is None:
            return {}
        if not hasattr(self, '_cc_cache'):
            self._cc_cache = {}
        if ci.fq in self._cc_cache:
            return self._cc_cache[ci.fq]
        out = self._cc_cache.setdefault(ci.fq, {})
        for c in reversed(self.mro(ci)):
            for k, v in c.class_attrs.items():
                vv = v.operand if isinstance(v, ast.UnaryOp) and isinstance(v.op, (ast.USub, ast.UAdd)) else v
                if k.startswith('_') and not k.startswith('__') and isinstance(vv, ast.Constant) and \
                        isinstance(vv.value, (int, float, str)) and not isinstance(vv.value, bool):
                    out[k] = v
                elif k.startswith('_') and not k.startswith('__') and isinstance(v, ast.Tuple) and v.elts and all(
                        isinstance(e, ast.Constant) and isinstance(e.value, (int, float, str)) for e in v.elts):
                    out[k] = v
        # not if some method assigns self._X
        for k in self._stored_attr_names():
            out.pop(k, None)
        return out

    def websplit(self, fi):
        """a view of the function in which unrelated reuses of one local name are separate variables
        (rsx/webs.py): same FuncInfo fields, renamed copy of the body.  For rules that compare values
        through the text of local names."""
        if not hasattr(self, '_ws_cache'):
            self._ws_cache = {}
        if fi.fq not in self._ws_cache:
            import copy as _copy
            from .webs import split_webs
            cp = _copy.deepcopy(fi.node)
            if split_webs(cp):
                proxy = _copy.copy(fi)
                proxy.node = cp
                self._ws_cache[fi.fq] = proxy
            else:
                self._ws_cache[fi.fq] = fi
        return self._ws_cache[fi.fq]

    def _stored_attr_names(self):
        """every attribute name that some statement of the package stores to or deletes (any receiver)"""
        if not hasattr(self, '_stored_attrs'):
            out = set()
            for m in self.modules.values():
                for n in ast.walk(m.tree):
                    if isinstance(n, ast.Attribute) and isinstance(n.ctx, (ast.Store, ast.Del)):
                        out.add(n.attr)
            self._stored_attrs = out
        return self._stored_attrs

    def _cls_seqs(self, ci):
        """class-level tuple / list displays (through the MRO) that no method stores to: readable as self.X"""
        if ci is None:
            return {}
        if not hasattr(self, '_cs_cache'):
            self._cs_cache = {}
        if ci.fq not in self._cs_cache:
            out = {}
            for c in reversed(self.mro(ci)):
                for k, v in c.class_attrs.items():
                    if isinstance(v, (ast.Tuple, ast.List, ast.BinOp, ast.Name)):
                        out[k] = v
                    else:
                        out.pop(k, None)
            for k in self._stored_attr_names():
                out.pop(k, None)
            out['#classes'] = tuple(c.name for c in self.mro(ci))
            self._cs_cache[ci.fq] = out
        return self._cs_cache[ci.fq]

    def _list_attrs(self, ci):
        """attributes that every __init__ / reset of the class hierarchy binds to a list display"""
        if ci is None:
            return frozenset()
        if not hasattr(self, '_la_cache'):
            self._la_cache = {}
        if ci.fq not in self._la_cache:
            vals = {}
            for c in self.mro(ci):
                for m in ('__init__', 'reset'):
                    f = c.methods.get(m)
                    if f is None:
                        continue
                    for n in ast.walk(f.raw_node):
                        if isinstance(n, ast.Assign):
                            for t in n.targets:
                                if isinstance(t, ast.Attribute) and isinstance(t.value, ast.Name) and t.value.id == 'self':
                                    vals.setdefault(t.attr, []).append(n.value)
            self._la_cache[ci.fq] = frozenset(
                k for k, vs in vals.items()
                if all(isinstance(v, (ast.List, ast.ListComp)) or
                       (isinstance(v, ast.Call) and isinstance(v.func, ast.Name) and v.func.id == 'list') for v in vs))
        return self._la_cache[ci.fq]

    def _sig_resolver(self, fi):
        """call node -> positional parameter names of the callee (receiver excluded), when the callee
        can be resolved from the source: package classes / functions, self-methods, super(), a
        numpy table, and -- for other receivers -- the common parameter prefix of every method of
        that name in the package"""
        from .normalize import NUMPY_SIGS

        def params_of(f, drop_self):
            a = f.raw_node.args
            ps = [x.arg for x in a.posonlyargs + a.args]
            if drop_self and ps and ps[0] in ('self', 'cls'):
                ps = ps[1:]
            return ps

        def resolve(call):
            f = call.func
            if isinstance(f, ast.Name):
                r = self.resolve_name(fi.module, f.id)
                if isinstance(r, ClassInfo):
                    init = self.resolve_method(r, '__init__')
                    return params_of(init, True) if init is not None else None
                if isinstance(r, FuncInfo):
                    return params_of(r, False)
                return None
            if isinstance(f, ast.Attribute):
                if isinstance(f.value, ast.Name) and f.value.id in ('np', 'numpy'):
                    return NUMPY_SIGS.get(f.attr)
                if isinstance(f.value, ast.Name) and f.value.id == 'self' and fi.cls is not None:
                    m = self.resolve_method(fi.cls, f.attr)
                    if m is not None:
                        return params_of(m, True)
                if isinstance(f.value, ast.Call) and isinstance(f.value.func, ast.Name) and \
                        f.value.func.id == 'super' and fi.cls is not None:
                    m = self.resolve_method(fi.cls, f.attr, after=fi.cls)
                    if m is not None:
                        return params_of(m, True)
                cands = [c.methods[f.attr] for c in self.all_classes()
                         if f.attr in c.methods and c.module not in ('deco', 'cpt_solver_bkp')]
                if cands:
                    lists = [params_of(m, True) for m in cands]
                    pre = []
                    for col in zip(*lists):
                        if len(set(col)) == 1:
                            pre.append(col[0])
                        else:
                            break
                    return pre or None
            return None
        return resolve

    # --------------------------------------------------------------- resolution
    def module(self, name):
        if name not in self.modules:
            raise AnalysisError('module rsome/%s.py vanished' % name)
        self.consulted.add(name)
        return self.modules[name]

    def resolve_name(self, modname, name, _seen=None):
        """Resolve a bare name used in module `modname` to ClassInfo / FuncInfo / None."""
        _seen = _seen or set()
        if (modname, name) in _seen or modname not in self.modules:
            return None
        _seen.add((modname, name))
        mod = self.modules[modname]
        if name in mod.classes:
            return mod.classes[name]
        if name in mod.functions:
            return mod.functions[name]
        if name in mod.imports:
            src, orig = mod.imports[name]
            return self.resolve_name(src, orig, _seen)
        for src in mod.star_imports:
            r = self.resolve_name(src, name, _seen)
            if r is not None:
                return r
        return None

    def cls(self, fq):
        m, c = fq.split('.')
        mod = self.module(m)
        if c not in mod.classes:
            raise AnalysisError('class %s vanished' % fq)
        return mod.classes[c]

    def func(self, fq):
        """'lp.def_sol' or 'lp.Model.st'."""
        parts = fq.split('.')
        mod = self.module(parts[0])
        if len(parts) == 2:
            if parts[1] not in mod.functions:
                raise AnalysisError('function %s vanished' % fq)
            return mod.functions[parts[1]]
        ci = self.cls(parts[0] + '.' + parts[1])
        if parts[2] not in ci.methods:
            raise AnalysisError('method %s vanished' % fq)
        return ci.methods[parts[2]]

    def has_func(self, fq):
        try:
            self.func(fq)
            return True
        except AnalysisError:
            return False

    def mro(self, ci):
        """C3 is overkill: the package uses single inheritance only (checked)."""
        out = []
        cur = ci
        guard = 0
        while cur is not None:
            out.append(cur)
            if len(cur.bases) > 1:
                raise AnalysisError('multiple inheritance in %s: MRO not modelled' % cur.fq)
            cur = cur.bases[0] if cur.bases else None
            guard += 1
            if guard > 20:
                raise AnalysisError('inheritance cycle at %s' % ci.fq)
        return out

    def resolve_method(self, ci, name, after=None):
        """First class in MRO(ci) defining `name`; with `after`, start after that class
        (the meaning of super().name inside class `after`)."""
        chain = self.mro(ci)
        if after is not None:
            idx = [i for i, c in enumerate(chain) if c is after]
            if not idx:
                return None
            chain = chain[idx[0] + 1:]
        for c in chain:
            if name in c.methods:
                return c.methods[name]
        return None

    def is_subclass(self, ci, other):
        return other in self.mro(ci)

    def subclasses(self, ci):
        out = []
        for mod in self.modules.values():
            for c in mod.classes.values():
                if c is not ci and self.is_subclass(c, ci):
                    out.append(c)
        return out

    def all_classes(self):
        for mod in self.modules.values():
            for c in mod.classes.values():
                yield c

    def all_functions(self, include_absorbed=False):
        for mod in self.modules.values():
            for f in mod.functions.values():
                if include_absorbed or not f.absorbed:
                    yield f
            for c in mod.classes.values():
                for f in c.methods.values():
                    if include_absorbed or not f.absorbed:
                        yield f

    def where(self, fi, node=None):
        line = getattr(node, 'orig_lineno', None) or getattr(node, 'lineno', None) or \
            getattr(fi.node, 'orig_lineno', None) or fi.node.lineno
        return 'rsome/%s.py:%d' % (fi.module, line)

    def digests(self):
        return {m: self.modules[m].digest[:16] for m in sorted(self.consulted)}


# ------------------------------------------------------------------------ ast helpers
def attr_path(node):
    """a.b.c -> ('a','b','c'); anything else -> None.  Subscripts are kept as '[]'."""
    parts = []
    cur = node
    while True:
        if isinstance(cur, ast.Attribute):
            parts.append(cur.attr)
            cur = cur.value
        elif isinstance(cur, ast.Subscript):
            parts.append('[]')
            cur = cur.value
        elif isinstance(cur, ast.Name):
            parts.append(cur.id)
            break
        else:
            return None
    return tuple(reversed(parts))


def is_self_attr(node, name=None):
    return (isinstance(node, ast.Attribute) and isinstance(node.value, ast.Name)
            and node.value.id == 'self' and (name is None or node.attr == name))


def call_name(call):
    """Dotted name of the callee, e.g. 'self.st', 'np.zeros', 'super().st', 'Foo'."""
    f = call.func
    parts = []
    while True:
        if isinstance(f, ast.Attribute):
            parts.append(f.attr)
            f = f.value
        elif isinstance(f, ast.Name):
            parts.append(f.id)
            break
        elif isinstance(f, ast.Call) and isinstance(f.func, ast.Name) and f.func.id == 'super':
            parts.append('super()')
            break
        else:
            parts.append('?')
            break
    return '.'.join(reversed(parts))


def walk_no_nested(node):
    """ast.walk that does not descend into nested function/class definitions."""
    stack = [node]
    first = True
    while stack:
        n = stack.pop()
        if not first and isinstance(n, (ast.FunctionDef, ast.AsyncFunctionDef, ast.ClassDef, ast.Lambda)):
            continue
        first = False
        yield n
        stack.extend(ast.iter_child_nodes(n))


def body_stmts(fi):
    """Function body without the docstring."""
    body = fi.node.body
    if body and isinstance(body[0], ast.Expr) and isinstance(body[0].value, ast.Constant) \
            and isinstance(body[0].value.value, str):
        return body[1:]
    return body
