"""E4: path reasoning over the structured statements of one function.

Instead of materialising a CFG, a forward *must* analysis is run directly over the statement
tree: a state is a frozenset of facts that hold on **every** path reaching a program point
(join = intersection); ``None`` is the unreachable state.  This decides the rule shapes the
catalogue needs: "every path from entry to sink S passes P" (P generates a fact, S is
visited with the state), "every normal exit is preceded by P", and "guard G dominates S"
(the raising branch of G contributes no state to the join, so the negated test is a fact
afterwards).

Statement kinds interpreted: if/elif/else, for/while(+else), try/except/else/finally, with,
return, raise, break, continue, pass, simple statements.  ``match`` or async constructs are
outside the interpreted language -> AnalysisError.
"""
import ast

from .loader import AnalysisError, ntext


def join(*states):
    live = [s for s in states if s is not None]
    if not live:
        return None
    out = live[0]
    for s in live[1:]:
        out = out & s
    return out


class Outcome:
    __slots__ = ('normal', 'returns', 'raises', 'breaks', 'continues')

    def __init__(self, normal=None):
        self.normal = normal
        self.returns = []     # list of (state, node)
        self.raises = []      # list of (state, node)
        self.breaks = []
        self.continues = []

    def absorb(self, other):
        self.returns += other.returns
        self.raises += other.raises
        self.breaks += other.breaks
        self.continues += other.continues


class MustFlow:
    """Subclass and override ``transfer``, ``refine``, ``visit``."""

    def __init__(self):
        self._trace = None

    # ---- hooks ---------------------------------------------------------------------------
    def visit(self, node, state):
        """Called with the state *before* every simple statement and every evaluated
        control expression (if/while test, for iter, with item, return value, raise exc)."""

    def transfer(self, node, state):
        """State after a simple statement / evaluated control expression."""
        return state

    def refine(self, test, branch, state):
        """State on entering the `branch` (True/False) side of `test`."""
        return state | {('cond', branch, ntext(test))}

    def after_loop(self, loop, state):
        """State after a for/while statement (hook: e.g. 'every item has been validated')."""
        return state

    def bind_loop(self, target, iter_node, state):
        """State at the top of a for-body after binding `target`."""
        return state

    # ---- driver --------------------------------------------------------------------------
    def run(self, stmts, init=frozenset()):
        return self.walk(list(stmts), frozenset(init))

    def _eval(self, expr, state):
        if expr is None or state is None:
            return state
        self.visit(expr, state)
        out = self.transfer(expr, state)
        if self._trace is not None:
            self._trace.append(out)
        return out

    def walk(self, stmts, state):
        out = Outcome()
        cur = state
        for st in stmts:
            if cur is None:
                break
            res = self.stmt(st, cur)
            out.absorb(res)
            cur = res.normal
        out.normal = cur
        return out

    def stmt(self, st, state):
        if isinstance(st, ast.If):
            s0 = self._eval(st.test, state)
            t = self.walk(st.body, self.refine(st.test, True, s0))
            f = self.walk(st.orelse, self.refine(st.test, False, s0))
            o = Outcome(join(t.normal, f.normal))
            o.absorb(t)
            o.absorb(f)
            return o
        if isinstance(st, (ast.For, ast.While)):
            return self._loop(st, state)
        if isinstance(st, ast.Try):
            return self._try(st, state)
        if isinstance(st, ast.With):
            cur = state
            for item in st.items:
                cur = self._eval(item.context_expr, cur)
            return self.walk(st.body, cur)
        if isinstance(st, ast.Return):
            s = self._eval(st.value, state) if st.value is not None else state
            o = Outcome(None)
            o.returns.append((s, st))
            return o
        if isinstance(st, ast.Raise):
            s = self._eval(st.exc, state) if st.exc is not None else state
            o = Outcome(None)
            o.raises.append((s, st))
            return o
        if isinstance(st, ast.Break):
            o = Outcome(None)
            o.breaks.append((state, st))
            return o
        if isinstance(st, ast.Continue):
            o = Outcome(None)
            o.continues.append((state, st))
            return o
        if isinstance(st, (ast.FunctionDef, ast.AsyncFunctionDef, ast.ClassDef)):
            return Outcome(state)
        if isinstance(st, (ast.Pass, ast.Import, ast.ImportFrom, ast.Global, ast.Nonlocal)):
            return Outcome(state)
        if isinstance(st, (ast.Assign, ast.AugAssign, ast.AnnAssign, ast.Expr, ast.Delete,
                           ast.Assert)):
            return Outcome(self._eval(st, state))
        raise AnalysisError('statement kind %s at line %s is outside the interpreted language'
                            % (type(st).__name__, getattr(st, 'lineno', '?')))

    def _loop(self, st, state):
        is_for = isinstance(st, ast.For)
        entry = self._eval(st.iter if is_for else None, state) if is_for else state
        head = entry
        result = Outcome()
        for _ in range(50):
            if is_for:
                body_in = self.bind_loop(st.target, st.iter, head)
                exit_state = head
            else:
                h = self._eval(st.test, head)
                body_in = self.refine(st.test, True, h)
                exit_state = self.refine(st.test, False, h)
            body = self.walk(st.body, body_in)
            new_head = join(entry, body.normal, *[s for s, _ in body.continues])
            if new_head == head:
                break
            head = new_head
        else:
            raise AnalysisError('loop fixpoint not reached')
        result.returns += body.returns
        result.raises += body.raises
        if isinstance(st, ast.While) and isinstance(st.test, ast.Constant) and st.test.value is True:
            exit_state = None
        els = self.walk(st.orelse, exit_state) if st.orelse else Outcome(exit_state)
        result.absorb(els)
        result.normal = join(els.normal, *[s for s, _ in body.breaks])
        if result.normal is not None:
            result.normal = self.after_loop(st, result.normal)
        return result

    def _try(self, st, state):
        saved = self._trace
        self._trace = [state]
        body = self.walk(st.body, state)
        seen = self._trace
        self._trace = saved
        if saved is not None:
            saved.extend(seen)
        # an exception may leave the body after any evaluated step
        handler_in = join(*seen)
        result = Outcome()
        normals = []
        els = self.walk(st.orelse, body.normal) if st.orelse else Outcome(body.normal)
        normals.append(els.normal)
        result.absorb(els)
        result.returns += body.returns
        result.breaks += body.breaks
        result.continues += body.continues
        if st.handlers:
            # raises inside the body may be caught: keep them as possible exits only when no
            # bare/Exception handler exists (conservative for "must" facts either way)
            result.raises += body.raises
            for h in st.handlers:
                hs = handler_in
                if h.type is not None:
                    hs = self._eval(h.type, hs)
                ho = self.walk(h.body, hs)
                normals.append(ho.normal)
                result.absorb(ho)
        else:
            result.raises += body.raises
        result.normal = join(*normals)
        if st.finalbody:
            fin = self.walk(st.finalbody, result.normal) if result.normal is not None \
                else Outcome(None)
            result.absorb(fin)
            result.normal = fin.normal
            # other exits also pass through the finally block
            for lst in (result.returns, result.raises, result.breaks, result.continues):
                for i, (s, n) in enumerate(lst):
                    if s is not None:
                        lst[i] = (self.walk(st.finalbody, s).normal, n)
        return result


def assigned_names(node):
    """Names (re)bound by a simple statement or loop target."""
    out = set()
    targets = []
    if isinstance(node, ast.Assign):
        targets = node.targets
    elif isinstance(node, (ast.AugAssign, ast.AnnAssign)):
        targets = [node.target]
    elif isinstance(node, (ast.expr,)):
        targets = [node]
    for t in targets:
        for n in ast.walk(t):
            if isinstance(n, ast.Name) and isinstance(n.ctx, ast.Store):
                out.add(n.id)
    # walrus
    for n in ast.walk(node):
        if isinstance(n, ast.NamedExpr) and isinstance(n.target, ast.Name):
            out.add(n.target.id)
    return out
