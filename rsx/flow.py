"""E4: path reasoning over the structured statements of one function.

Instead of materialising a CFG, a forward *must* analysis is run directly over the statement
tree: a state is a frozenset of facts that hold on **every** path reaching a program point
(join = intersection); ``None`` is the unreachable state.  This decides the rule shapes the
catalogue needs: "every path from entry to sink S passes P" (P generates a fact, S is
visited with the state), "every normal exit is preceded by P", and "guard G dominates S"
(the raising branch of G contributes no state to the join, so the negated test is a fact
afterwards).

Statement kinds interpreted: if/elif/else, for/while(+else), try/except/else/finally, with,
return, raise, break, continue, pass, simple statements.  ``match`` or async constructs are
outside the interpreted language -> AnalysisError.
"""
import ast

from .loader import AnalysisError, ntext


def join(*states):
    live = [s for s in states if s is not None]
    if not live:
        return None
    out = live[0]
    for s in live[1:]:
        out = _join2(out, s)
    return out


def _join2(a, b):
    """facts holding on both paths; for the condition clauses additionally every disjunction
    c1 | c2 of a clause known only on one path with a clause known only on the other (bounded) --
    this is what keeps  not (A and B)  after  `if A: if B: raise`"""
    common = a & b
    only_a = [f for f in a - common if isinstance(f, tuple) and f and f[0] == 'cl']
    only_b = [f for f in b - common if isinstance(f, tuple) and f and f[0] == 'cl']
    if only_a and only_b and len(only_a) <= 60 and len(only_b) <= 60:
        extra = set()
        for x in only_a:
            for y in only_b:
                c = x[1] | y[1]
                if len(c) <= 4 and not any((atom, not pol) in c for atom, pol in c):
                    extra.add(c)
        # keep the strongest (subsumption), bounded
        keep = []
        for c in sorted(extra, key=len):
            if not any(k <= c for k in keep):
                keep.append(c)
            if len(keep) >= 60:
                break
        if keep:
            return common | frozenset(('cl', c) for c in keep)
    return common


# ----------------------------------------------------------------------------- condition clauses
_FLIPPOS = {ast.IsNot: ast.Is, ast.NotEq: ast.Eq, ast.NotIn: ast.In}


def literal(e):
    """(atom text, polarity) of a test leaf, with one spelling for a comparison and its negation"""
    if isinstance(e, ast.UnaryOp) and isinstance(e.op, ast.Not):
        a, p = literal(e.operand)
        return a, not p
    if isinstance(e, ast.Compare) and len(e.ops) == 1:
        op, l, r = e.ops[0], e.left, e.comparators[0]
        # emptiness tests of a sized object: len(x) != 0, len(x) > 0, len(x) >= 1, 0 < len(x) ...
        for a, b, flipped in ((l, r, False), (r, l, True)):
            if isinstance(a, ast.Call) and isinstance(a.func, ast.Name) and a.func.id == 'len' and \
                    isinstance(b, ast.Constant) and b.value in (0, 1):
                t = type(op)
                if flipped:
                    t = {ast.Lt: ast.Gt, ast.Gt: ast.Lt, ast.LtE: ast.GtE, ast.GtE: ast.LtE}.get(t, t)
                key = (t, b.value)
                nonempty = {(ast.NotEq, 0): True, (ast.Gt, 0): True, (ast.GtE, 1): True,
                            (ast.Eq, 0): False, (ast.LtE, 0): False, (ast.Lt, 1): False}.get(key)
                if nonempty is not None:
                    return ast.unparse(a), nonempty
        # symmetric comparisons: the constant (else the textually larger operand) goes right
        if isinstance(op, (ast.Eq, ast.NotEq, ast.Is, ast.IsNot)):
            def _c(x):
                return isinstance(x, ast.Constant) or (isinstance(x, ast.UnaryOp) and isinstance(x.operand, ast.Constant))
            lc, rc = _c(l), _c(r)
            if (lc and not rc) or (lc == rc and ast.unparse(l) > ast.unparse(r)):
                l, r = r, l
        elif isinstance(l, ast.Constant) and not isinstance(r, ast.Constant) and \
                isinstance(op, (ast.Lt, ast.Gt, ast.LtE, ast.GtE)):
            l, r = r, l
            op = {ast.Lt: ast.Gt, ast.Gt: ast.Lt, ast.LtE: ast.GtE, ast.GtE: ast.LtE}[type(op)]()
        if type(op) in _FLIPPOS:
            pos = ast.Compare(left=l, ops=[_FLIPPOS[type(op)]()], comparators=[r])
            return ast.unparse(pos), False
        if isinstance(op, (ast.Eq, ast.Is, ast.In)):
            return ast.unparse(ast.Compare(left=l, ops=[op], comparators=[r])), True
        if isinstance(op, ast.Gt):
            return ast.unparse(ast.Compare(left=r, ops=[ast.Lt()], comparators=[l])), True
        if isinstance(op, ast.GtE):
            return ast.unparse(ast.Compare(left=l, ops=[ast.Lt()], comparators=[r])), False
        if isinstance(op, ast.LtE):
            return ast.unparse(ast.Compare(left=r, ops=[ast.Lt()], comparators=[l])), False
    return ast.unparse(e), True


def clauses(test, truth):
    """CNF (set of frozensets of literals) implied by `test` evaluating to `truth`; sub-formulas
    that would need distribution are dropped (sound: fewer facts)"""
    if isinstance(test, ast.UnaryOp) and isinstance(test.op, ast.Not):
        return clauses(test.operand, not truth)
    if isinstance(test, ast.BoolOp):
        conj = (isinstance(test.op, ast.And) and truth) or (isinstance(test.op, ast.Or) and not truth)
        if conj:
            out = set()
            for v in test.values:
                out |= clauses(v, truth)
            return out
        # a disjunction: one clause, when every operand contributes a single literal clause;
        # operands that are conjunctions are distributed one level (bounded)
        parts = [clauses(v, truth) for v in test.values]
        if any(not p for p in parts):
            return set()
        combos = [frozenset()]
        for p in parts:
            if len(p) * len(combos) > 16:
                return set()
            combos = [c | q for c in combos for q in p]
        return {c for c in combos if len(c) <= 5 and not any((a, not pol) in c for a, pol in c)}
    # x in ('U', 'L') / x not in [..]: a disjunction of equalities (conjunction of inequalities)
    if isinstance(test, ast.Compare) and len(test.ops) == 1 and isinstance(test.ops[0], (ast.In, ast.NotIn)) and \
            isinstance(test.comparators[0], (ast.Tuple, ast.List, ast.Set)) and \
            1 <= len(test.comparators[0].elts) <= 5 and \
            all(isinstance(e, ast.Constant) for e in test.comparators[0].elts):
        member = isinstance(test.ops[0], ast.In) == truth
        eqs = [literal(ast.Compare(left=test.left, ops=[ast.Eq()], comparators=[e]))[0]
               for e in test.comparators[0].elts]
        a, p = literal(test)
        whole = frozenset({(a, p if truth else not p)})
        if member:
            return {whole, frozenset((q, True) for q in eqs)}
        return {whole} | {frozenset({(q, False)}) for q in eqs}
    a, p = literal(test)
    return {frozenset({(a, p if truth else not p)})}


def holds(state, expr, truth=True):
    """does the state imply that `expr` (source text or ast) evaluates to `truth`?"""
    if state is None:
        return True
    if isinstance(expr, str):
        expr = ast.parse(expr, mode='eval').body
    need = clauses(expr, truth)
    if not need:
        return False
    have = [f[1] for f in state if isinstance(f, tuple) and f and f[0] == 'cl']
    return all(any(h <= c for h in have) for c in need)


def _add_clauses(state, new):
    """add clauses and close under unit resolution (bounded)"""
    have = {f[1] for f in state if isinstance(f, tuple) and f and f[0] == 'cl'}
    work = set(new) - have
    # an object that is truthy is not None
    for c in list(work):
        if len(c) == 1:
            a, pol = next(iter(c))
            if pol and _plain_ref(a):
                work.add(frozenset({(a + ' is None', False)}))
    have |= work
    for _ in range(4):
        units = {next(iter(c)) for c in have if len(c) == 1}
        if not units:
            break
        derived = set()
        for c in have:
            if len(c) > 1:
                cut = frozenset(l for l in c if (l[0], not l[1]) not in units)
                if cut and cut != c and cut not in have:
                    derived.add(cut)
        if not derived:
            break
        have |= derived
    return frozenset(f for f in state if not (isinstance(f, tuple) and f and f[0] == 'cl')) | \
        frozenset(('cl', c) for c in have)


def _plain_ref(text):
    """the atom is a bare reference (name / attribute path), i.e. a truthiness test of an object"""
    try:
        e = ast.parse(text, mode='eval').body
    except SyntaxError:
        return False
    while isinstance(e, ast.Attribute):
        e = e.value
    return isinstance(e, ast.Name)


def _is_ref(e):
    while isinstance(e, ast.Attribute):
        e = e.value
    return isinstance(e, ast.Name)


def _boolish(e):
    if isinstance(e, (ast.Compare, ast.BoolOp)):
        return True
    if isinstance(e, ast.UnaryOp) and isinstance(e.op, ast.Not):
        return True
    if isinstance(e, ast.Call):
        f = e.func
        if isinstance(f, ast.Name) and f.id in ('isinstance', 'any', 'all', 'hasattr', 'callable'):
            return True
        if isinstance(f, ast.Attribute) and f.attr in ('any', 'all', 'isnan', 'isinf', 'isfinite', 'issparse'):
            return True
    if isinstance(e, ast.Constant) and isinstance(e.value, bool):
        return True
    return False


def clauses_of(state):
    return [f[1] for f in (state or ()) if isinstance(f, tuple) and f and f[0] == 'cl']


def _kill(state, stored_names, stored_paths):
    """drop the clauses that talk about a name that has just been re-bound or about an attribute /
    element path that has just been stored to (`self.sign = ..` kills facts about self.sign and
    self.sign.x, not about obj.sign)"""
    if state is None or (not stored_names and not stored_paths):
        return state
    out = set()
    for f in state:
        if isinstance(f, tuple) and f and f[0] == 'cl':
            dead = False
            for t, _p in f[1]:
                try:
                    tree = ast.parse(t, mode='eval')
                except SyntaxError:
                    continue
                for n in ast.walk(tree):
                    if isinstance(n, ast.Name) and n.id in stored_names:
                        dead = True
                    elif isinstance(n, (ast.Attribute, ast.Subscript)) and stored_paths:
                        txt = ast.unparse(n)
                        if any(txt == sp or txt.startswith(sp + '.') or txt.startswith(sp + '[') for sp in stored_paths):
                            dead = True
            if dead:
                continue
        out.add(f)
    return frozenset(out)


class Outcome:
    __slots__ = ('normal', 'returns', 'raises', 'breaks', 'continues')

    def __init__(self, normal=None):
        self.normal = normal
        self.returns = []     # list of (state, node)
        self.raises = []      # list of (state, node)
        self.breaks = []
        self.continues = []

    def absorb(self, other):
        self.returns += other.returns
        self.raises += other.raises
        self.breaks += other.breaks
        self.continues += other.continues


class MustFlow:
    """Subclass and override ``transfer``, ``refine``, ``visit``."""

    def __init__(self):
        self._trace = None

    # ---- hooks ---------------------------------------------------------------------------
    def visit(self, node, state):
        """Called with the state *before* every simple statement and every evaluated
        control expression (if/while test, for iter, with item, return value, raise exc)."""

    def transfer(self, node, state):
        """State after a simple statement / evaluated control expression."""
        return state

    def refine(self, test, branch, state):
        """State on entering the `branch` (True/False) side of `test`."""
        return state | {('cond', branch, ntext(test))}

    def after_loop(self, loop, state):
        """State after a for/while statement (hook: e.g. 'every item has been validated')."""
        return state

    def bind_loop(self, target, iter_node, state):
        """State at the top of a for-body after binding `target`."""
        return state

    # ---- driver --------------------------------------------------------------------------
    def run(self, stmts, init=frozenset()):
        return self.walk(list(stmts), frozenset(init))

    def _branch(self, test, truth, state):
        """rule-specific refinement plus the generic condition clauses"""
        if state is None:
            return None
        out = self.refine(test, truth, state)
        if out is None:
            return None
        return _add_clauses(out, clauses(test, truth))

    def local_state(self, root, target, state):
        """the state in which the sub-expression `target` of `root` is evaluated: operands of and/or
        and the arms of a conditional expression are only reached when the tests before them came out
        the right way"""
        def rec(e, st):
            if e is target:
                return st
            if isinstance(e, ast.BoolOp):
                cur = st
                for v in e.values:
                    r = rec(v, cur)
                    if r is not None:
                        return r
                    cur = self._branch(v, isinstance(e.op, ast.And), cur)
                return None
            if isinstance(e, ast.IfExp):
                r = rec(e.test, st)
                if r is not None:
                    return r
                r = rec(e.body, self._branch(e.test, True, st))
                if r is not None:
                    return r
                return rec(e.orelse, self._branch(e.test, False, st))
            for c in ast.iter_child_nodes(e):
                r = rec(c, st)
                if r is not None:
                    return r
            return None
        out = rec(root, state)
        return state if out is None else out

    def _eval(self, expr, state):
        if expr is None or state is None:
            return state
        self.visit(expr, state)
        out = self.transfer(expr, state)
        if isinstance(expr, (ast.Assign, ast.AugAssign, ast.AnnAssign, ast.Delete)) and out is not None:
            names, paths = set(), set()
            tgts = expr.targets if isinstance(expr, (ast.Assign, ast.Delete)) else [expr.target]

            def _tg(t):
                if isinstance(t, (ast.Tuple, ast.List)):
                    for e in t.elts:
                        _tg(e)
                elif isinstance(t, ast.Starred):
                    _tg(t.value)
                elif isinstance(t, ast.Name):
                    names.add(t.id)
                elif isinstance(t, ast.Attribute):
                    paths.add(ast.unparse(t))
                elif isinstance(t, ast.Subscript):
                    # an element store changes the container (x[i] = v: facts about x / x[..] / x.any())
                    if isinstance(t.value, ast.Name):
                        names.add(t.value.id)
                    else:
                        paths.add(ast.unparse(t.value))
            for t in tgts:
                _tg(t)
            out = _kill(out, names, paths)
            # an alias  x = <name / attribute path>: x is truthy (is None) exactly when the path is
            if isinstance(expr, ast.Assign) and len(expr.targets) == 1 and isinstance(expr.targets[0], ast.Name) \
                    and _is_ref(expr.value) and ast.unparse(expr.value) != expr.targets[0].id:
                m, pth = expr.targets[0].id, ast.unparse(expr.value)
                out = _add_clauses(out, {frozenset({(m, False), (pth, True)}), frozenset({(m, True), (pth, False)}),
                                         frozenset({(m + ' is None', False), (pth + ' is None', True)}),
                                         frozenset({(m + ' is None', True), (pth + ' is None', False)})})
            # a named condition  flag = <boolean expression>:  flag <-> expression
            if isinstance(expr, ast.Assign) and len(expr.targets) == 1 and isinstance(expr.targets[0], ast.Name) \
                    and _boolish(expr.value) and expr.targets[0].id not in {n.id for n in ast.walk(expr.value)
                                                                            if isinstance(n, ast.Name)}:
                m = expr.targets[0].id
                if isinstance(expr.value, ast.Constant):
                    out = _add_clauses(out, {frozenset({(m, bool(expr.value.value))})})
                else:
                    eq = set()
                    for c in clauses(expr.value, True):         # flag -> expression
                        eq.add(c | {(m, False)})
                    for c in clauses(expr.value, False):        # not flag -> not expression
                        eq.add(c | {(m, True)})
                    out = _add_clauses(out, {c for c in eq if len(c) <= 5})
        if self._trace is not None:
            self._trace.append(out)
        return out

    def walk(self, stmts, state):
        out = Outcome()
        cur = state
        for st in stmts:
            if cur is None:
                break
            res = self.stmt(st, cur)
            out.absorb(res)
            cur = res.normal
        out.normal = cur
        return out

    def stmt(self, st, state):
        if isinstance(st, ast.If):
            s0 = self._eval(st.test, state)
            t = self.walk(st.body, self._branch(st.test, True, s0))
            f = self.walk(st.orelse, self._branch(st.test, False, s0))
            o = Outcome(join(t.normal, f.normal))
            o.absorb(t)
            o.absorb(f)
            return o
        if isinstance(st, (ast.For, ast.While)):
            return self._loop(st, state)
        if isinstance(st, ast.Try):
            return self._try(st, state)
        if isinstance(st, ast.With):
            cur = state
            for item in st.items:
                cur = self._eval(item.context_expr, cur)
            return self.walk(st.body, cur)
        if isinstance(st, ast.Return):
            s = self._eval(st.value, state) if st.value is not None else state
            o = Outcome(None)
            o.returns.append((s, st))
            return o
        if isinstance(st, ast.Raise):
            s = self._eval(st.exc, state) if st.exc is not None else state
            o = Outcome(None)
            o.raises.append((s, st))
            return o
        if isinstance(st, ast.Break):
            o = Outcome(None)
            o.breaks.append((state, st))
            return o
        if isinstance(st, ast.Continue):
            o = Outcome(None)
            o.continues.append((state, st))
            return o
        if isinstance(st, (ast.FunctionDef, ast.AsyncFunctionDef, ast.ClassDef)):
            return Outcome(state)
        if isinstance(st, (ast.Pass, ast.Import, ast.ImportFrom, ast.Global, ast.Nonlocal)):
            return Outcome(state)
        if isinstance(st, (ast.Assign, ast.AugAssign, ast.AnnAssign, ast.Expr, ast.Delete,
                           ast.Assert)):
            return Outcome(self._eval(st, state))
        raise AnalysisError('statement kind %s at line %s is outside the interpreted language'
                            % (type(st).__name__, getattr(st, 'lineno', '?')))

    def _loop(self, st, state):
        is_for = isinstance(st, ast.For)
        entry = self._eval(st.iter if is_for else None, state) if is_for else state
        head = entry
        result = Outcome()
        for _ in range(50):
            if is_for:
                body_in = self.bind_loop(st.target, st.iter, head)
                exit_state = head
            else:
                h = self._eval(st.test, head)
                body_in = self._branch(st.test, True, h)
                exit_state = self._branch(st.test, False, h)
            body = self.walk(st.body, body_in)
            new_head = join(entry, body.normal, *[s for s, _ in body.continues])
            if new_head == head:
                break
            head = new_head
        else:
            raise AnalysisError('loop fixpoint not reached')
        result.returns += body.returns
        result.raises += body.raises
        if isinstance(st, ast.While) and isinstance(st.test, ast.Constant) and st.test.value is True:
            exit_state = None
        if is_for and isinstance(st.iter, (ast.Tuple, ast.List)) and st.iter.elts and \
                not any(isinstance(e, ast.Starred) for e in st.iter.elts):
            # a loop over a non-empty display runs its body at least once: the loop is left through the
            # end of the body (or a break), never from the state before it
            exit_state = join(body.normal, *[s for s, _ in body.continues])
        els = self.walk(st.orelse, exit_state) if st.orelse else Outcome(exit_state)
        result.absorb(els)
        result.normal = join(els.normal, *[s for s, _ in body.breaks])
        if result.normal is not None:
            result.normal = self.after_loop(st, result.normal)
        return result

    def _try(self, st, state):
        saved = self._trace
        self._trace = [state]
        body = self.walk(st.body, state)
        seen = self._trace
        self._trace = saved
        if saved is not None:
            saved.extend(seen)
        # an exception may leave the body after any evaluated step
        handler_in = join(*seen)
        result = Outcome()
        normals = []
        els = self.walk(st.orelse, body.normal) if st.orelse else Outcome(body.normal)
        normals.append(els.normal)
        result.absorb(els)
        result.returns += body.returns
        result.breaks += body.breaks
        result.continues += body.continues
        if st.handlers:
            # raises inside the body may be caught: keep them as possible exits only when no
            # bare/Exception handler exists (conservative for "must" facts either way)
            result.raises += body.raises
            for h in st.handlers:
                hs = handler_in
                if h.type is not None:
                    hs = self._eval(h.type, hs)
                ho = self.walk(h.body, hs)
                normals.append(ho.normal)
                result.absorb(ho)
        else:
            result.raises += body.raises
        result.normal = join(*normals)
        if st.finalbody:
            fin = self.walk(st.finalbody, result.normal) if result.normal is not None \
                else Outcome(None)
            result.absorb(fin)
            result.normal = fin.normal
            # other exits also pass through the finally block
            for lst in (result.returns, result.raises, result.breaks, result.continues):
                for i, (s, n) in enumerate(lst):
                    if s is not None:
                        lst[i] = (self.walk(st.finalbody, s).normal, n)
        return result


def assigned_names(node):
    """Names (re)bound by a simple statement or loop target."""
    out = set()
    targets = []
    if isinstance(node, ast.Assign):
        targets = node.targets
    elif isinstance(node, (ast.AugAssign, ast.AnnAssign)):
        targets = [node.target]
    elif isinstance(node, (ast.expr,)):
        targets = [node]
    for t in targets:
        for n in ast.walk(t):
            if isinstance(n, ast.Name) and isinstance(n.ctx, ast.Store):
                out.add(n.id)
    # walrus
    for n in ast.walk(node):
        if isinstance(n, ast.NamedExpr) and isinstance(n.target, ast.Name):
            out.add(n.target.id)
    return out
